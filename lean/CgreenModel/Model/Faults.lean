import CgreenModel.Model.Runner
/-!
# Model of result delivery under resource failures (src/messaging.c, src/posix_cgreen_pipe.c,
src/reporter.c: read_reporter_results(), reporter_finish_test(), reporter_finish_suite())

A run, seen from the result channel, is a sequence of *phases*: a sender (a test's process, or the
reporting process itself for a suite or a test skipped by declaration) writes a group of records, then
a reader (`finish_test` or `finish_suite`) reads until the first completion notice, until the channel
is empty, or until a `read()` fails. The `k`-th `read()` of the run may fail (single injected fault).
Core Lean only.
-/
namespace Cgreen.Faults
open Cgreen

structure Leg where
  recs : List Rec              -- the records the sender writes before its completion notice
  complete : Bool := true      -- it sends the completion notice (it did not die first)
  isTest : Bool := true        -- the reader is finish_test (else finish_suite)
  signalled : Bool := false    -- the sender's process was killed by a signal (finish_test is told)

def Leg.group (ph : Leg) : List Rec := ph.recs ++ (if ph.complete then [.completion] else [])

inductive Status | received | skipped | notReceived
  deriving DecidableEq, Repr

structure RSt where
  pipe : List Rec := []
  cnt : Cnt := {}
  reads : Nat := 0             -- read() calls on the channel so far

def statusEnd (sk : Bool) : Status := if sk then .skipped else .notReceived

/-- `read_reporter_results()`: `n` is the index of the next `read()` of the run, `k` the one that fails.
A failing `read()` and a `read()` that finds the channel empty end the loop in the same way. -/
def readLoop (k : Option Nat) : Nat → Bool → Cnt → List Rec → Nat × Cnt × List Rec × Status
  | n, sk, c, [] => (n + 1, c, [], statusEnd sk)
  | n, sk, c, r :: rest =>
    if k = some n then (n + 1, c, r :: rest, statusEnd sk) else
    match r with
    | .completion => (n + 1, c, rest, if sk then .skipped else .received)
    | .pass => readLoop k (n + 1) sk { c with p := c.p + 1 } rest
    | .fail => readLoop k (n + 1) sk { c with f := c.f + 1 } rest
    | .exception => readLoop k (n + 1) sk { c with e := c.e + 1 } rest
    | .skipped => readLoop k (n + 1) true (if sk then c else { c with s := c.s + 1 }) rest

/-- One phase: the group arrives behind whatever is still in the channel, then the reader runs;
`finish_test` counts an exception when it finds no completion notice, or finds one but is told that the
process was killed. -/
def excOf (ph : Leg) (st : Status) : Bool :=
  ph.isTest && (match st with | .notReceived => true | .received => ph.signalled | .skipped => false)
def bump (exc : Bool) (c : Cnt) : Cnt := if exc then { c with e := c.e + 1 } else c

def phaseStep (k : Option Nat) (s : RSt) (ph : Leg) : RSt :=
  let r := readLoop k s.reads false s.cnt (s.pipe ++ ph.group)
  { pipe := r.2.2.1, cnt := bump (excOf ph r.2.2.2) r.2.1, reads := r.1 }

def runPhases (k : Option Nat) (phases : List Leg) : RSt := phases.foldl (phaseStep k) {}

/-- The verdict of `run_test_suite()`. -/
def success (s : RSt) : Bool := s.cnt.f == 0 && s.cnt.e == 0

/-- Failure and exception records in a list. -/
def nbad : List Rec → Nat
  | [] => 0
  | .fail :: l => nbad l + 1
  | .exception :: l => nbad l + 1
  | _ :: l => nbad l

def sentBad (phases : List Leg) : Nat := (phases.map (fun ph => nbad ph.group)).sum

/-- Before the repair (F29): `send_cgreen_message()` allocated the record and returned silently when the
allocation failed, i.e. the `j`-th record of the run was dropped. -/
def dropNth : Nat → List Leg → List Leg
  | _, [] => []
  | j, ph :: rest =>
    if j < ph.group.length then { ph with recs := (ph.group.eraseIdx j).filter (· ≠ .completion),
                                           complete := (ph.group.eraseIdx j).contains .completion } :: rest
    else ph :: dropNth (j - ph.group.length) rest

end Cgreen.Faults
