import CgreenModel.Model.Select
/-
  Model of how cgreen-runner reads the symbol listing of a test library (tools/discoverer.c:
  `read_whole_line`, `add_all_tests_from`; tools/io.c: `read_line`, which is `fgets`): every line is read in
  pieces into a buffer that is doubled while it is full and the line goes on; a line that mentions a
  specification symbol in a data section becomes a test item (tools/test_item.c). Core Lean only.
-/
namespace Cgreen.Lines
open Cgreen.Sel

/-- What `fgets` copies once it is known that the stream is not at its end: up to `k` characters, stopping
after a line feed. Result: the characters copied and the rest of the stream. -/
def fgetsGo : Nat → Str → Str × Str
  | 0, s => ([], s)
  | _ + 1, [] => ([], [])
  | k + 1, c :: s => if c = '\n' then ([c], s) else let r := fgetsGo k s; (c :: r.1, r.2)

/-- `read_line(file, buffer, max_length)`: `fgets`, which stores at most `max_length - 1` characters and a
terminator; `none` is EOF (also what a `max_length` below 1 gives); a `max_length` of 1 stores the empty
string without looking at the stream. -/
def readLine (maxLen : Nat) (s : Str) : Option (Str × Str) :=
  if maxLen = 0 then none
  else if maxLen = 1 then some ([], s)
  else if s.isEmpty then none
  else some (fgetsGo (maxLen - 1) s)

/-- What `read_whole_line` leaves: the buffer's contents (`none`: nothing could be read, the C returns -1),
the buffer's size, the rest of the stream, and whether every `read_line` was given a window that lies inside the
buffer as allocated at that moment. -/
structure Res where
  line : Option Str
  size : Nat
  rest : Str
  safe : Bool
  deriving DecidableEq, Repr, Inhabited

/-- The loop of `read_whole_line`: while the buffer is full (`length == *size - 2`) and what it holds does
not end in a line feed, double the buffer and read on behind what is there. -/
def grow : Nat → Str → Nat → Str → Bool → Res
  | 0, line, size, rest, safe => ⟨some line, size, rest, safe⟩
  | fuel + 1, line, size, rest, safe =>
    if line.length + 2 = size ∧ line.getLast? ≠ some '\n' then
      match readLine (size + 1) rest with
      | none => ⟨some line, size * 2, rest, safe⟩                       -- `more < 0`: leave with what there is
      | some (chunk, rest') =>
        grow fuel (line ++ chunk) (size * 2) rest' (safe && decide (line.length + (size + 1) ≤ size * 2))
    else ⟨some line, size, rest, safe⟩

/-- `read_whole_line(file, &line, &size)`. The loop runs at most once per character left in the stream. -/
def readWholeLine (size : Nat) (s : Str) : Res :=
  match readLine (size - 1) s with
  | none => ⟨none, size, s, true⟩
  | some (chunk, rest) => grow (rest.length + 1) chunk size rest (decide (size - 1 ≤ size))

/-- The loop of `add_all_tests_from`: lines until `read_whole_line` returns -1; the buffer keeps the size it
has grown to. -/
def allLines : Nat → Nat → Str → List Str × Bool
  | 0, _, _ => ([], true)
  | fuel + 1, size, s =>
    let r := readWholeLine size s
    match r.line with
    | none => ([], r.safe)
    | some l => let t := allLines fuel r.size r.rest; (l :: t.1, r.safe && t.2)

/-- `strstr(s, pat)`: the part of `s` from the first occurrence of `pat` on. -/
def findSub (pat : Str) : Str → Option Str
  | [] => if pat.isEmpty then some [] else none
  | c :: s => if pat.isPrefixOf (c :: s) then some (c :: s) else findSub pat s

def definitionMark : Str := " D ".toList

/-- `strip_newline_from`. -/
def stripNewline (l : Str) : Str := if l.getLast? = some '\n' then l.dropLast else l

/-- One line of the listing: a test item when the line mentions `CgreenSpec__` and ` D `; the specification
name is the line from `CgreenSpec__` to its end, without the line feed. -/
def specOfLine (line : Str) : Option Str :=
  match findSub prefixSpec line, findSub definitionMark line with
  | some _, some _ => findSub prefixSpec (stripNewline line)
  | _, _ => none

def itemOfLine (line : Str) : Option Item := (specOfLine line).bind parseSpec

/-- `add_all_tests_from` with the buffer starting at `size` bytes. -/
def discover (size : Nat) (s : Str) : List Item := (allLines (s.length + 1) size s).1.filterMap itemOfLine

/-! ### What reading line by line means -/

/-- The first line of a stream, with its line feed if it has one. -/
def firstLine : Str → Str
  | [] => []
  | c :: s => if c = '\n' then [c] else c :: firstLine s

def afterLine : Str → Str
  | [] => []
  | c :: s => if c = '\n' then s else afterLine s

/-- The stream cut after every line feed. -/
def splitLines : Str → List Str
  | [] => []
  | c :: s =>
    if c = '\n' then [c] :: splitLines s
    else match splitLines s with
      | [] => [[c]]
      | l :: ls => (c :: l) :: ls

end Cgreen.Lines
