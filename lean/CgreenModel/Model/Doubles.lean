/-
  Model of cgreen's double comparison (src/constraint.c: `doubles_are_equal`, `double_is_lesser`,
  `double_is_greater`, `accuracy`, `absolute_tolerance`), written once over an abstract arithmetic
  (`NumOps`) and instantiated twice:
  * `floatOps`: IEEE binary64 with the C library's `log10`, `pow`, `floor`, `fabs` (Lean's `Float` is the
    C `double`): this instance is executed against the implementation and must agree bit for bit;
  * `ratOps F`: exact rational arithmetic with `F = floor ∘ log10`: the instance the theorems are about.
  Every finite binary64 value is a rational; what separates the two instances is rounding in `-`, `+`
  and libm, which the correspondence check measures. Core Lean only.
-/
namespace Cgreen.Dbl

structure NumOps (α : Type) where
  sub : α → α → α
  add : α → α → α
  lt : α → α → Bool
  abs : α → α
  absTol : α                    -- `DBL_MIN / 1.0e-8`
  acc : Int → α → α             -- `accuracy(figures, largest)`

/-- The C macro `max(a,b) ((a) > (b) ? (a) : (b))`. -/
def cmax {α : Type} (o : NumOps α) (a b : α) : α := if o.lt b a then a else b

/-- `doubles_are_equal(tried, expected)`. -/
def doublesAreEqual {α : Type} (o : NumOps α) (figs : Int) (tried expected : α) : Bool :=
  let d := o.abs (o.sub tried expected)
  o.lt d o.absTol || o.lt d (o.acc figs (cmax o (o.abs tried) (o.abs expected)))

/-- `double_is_lesser(actual, expected)`: note the `max` of the signed values, as in the C. -/
def doubleIsLesser {α : Type} (o : NumOps α) (figs : Int) (actual expected : α) : Bool :=
  o.lt expected (o.add actual (o.acc figs (cmax o actual expected)))

/-- `double_is_greater(actual, expected)`. -/
def doubleIsGreater {α : Type} (o : NumOps α) (figs : Int) (actual expected : α) : Bool :=
  o.lt (o.sub actual (o.acc figs (cmax o actual expected))) expected

/-- The constraints: `compare_want_double(constraint, actual)` calls `doubles_are_equal(expected value, actual)`,
the ordering ones `double_is_lesser/greater(expected value, actual)`. `e` = the value given to the constraint,
`a` = the value under test. -/
def wantDouble {α : Type} (o : NumOps α) (figs : Int) (e a : α) : Bool := doublesAreEqual o figs e a
def doNotWantDouble {α : Type} (o : NumOps α) (figs : Int) (e a : α) : Bool := !wantDouble o figs e a
def wantLesserDouble {α : Type} (o : NumOps α) (figs : Int) (e a : α) : Bool := doubleIsLesser o figs e a      -- a < e + tolerance
def wantGreaterDouble {α : Type} (o : NumOps α) (figs : Int) (e a : α) : Bool := doubleIsGreater o figs e a    -- a > e − tolerance

/-! ### binary64 -/

/-- `pow(10.0, 1.0 + floor(log10(fabs(largest))) - figures)`. -/
def floatAcc (figs : Int) (largest : Float) : Float :=
  Float.pow 10.0 (1.0 + Float.floor (Float.log10 (Float.abs largest)) - Float.ofInt figs)

def floatOps : NumOps Float where
  sub := (· - ·)
  add := (· + ·)
  lt := fun a b => a < b
  abs := Float.abs
  absTol := Float.ofBits 0x0010000000000000 / 1.0e-8
  acc := floatAcc

/-! ### exact rationals -/

def rabs (x : Rat) : Rat := if x < 0 then -x else x

/-- `DBL_MIN / 1.0e-8` as a rational (the double nearest to 1e-8 is not exactly 1e-8; the difference is
far inside the rounding band the correspondence allows). -/
def absTolRat : Rat := (2 : Rat) ^ (-1022 : Int) * (10 : Rat) ^ (8 : Nat)

/-- For `largest = 0` libm gives `log10 0 = -inf` and `pow(10, -inf) = 0`. -/
def ratAcc (F : Rat → Int) (figs : Int) (largest : Rat) : Rat :=
  if rabs largest = 0 then 0 else (10 : Rat) ^ (1 + F (rabs largest) - figs)

def ratOps (F : Rat → Int) : NumOps Rat where
  sub := (· - ·)
  add := (· + ·)
  lt := fun a b => decide (a < b)
  abs := rabs
  absTol := absTolRat
  acc := ratAcc F

/-! ### An executable `floor ∘ log10` on positive rationals (search; fuel covers binary64) -/

def floorLog10Up (fuel : Nat) (L : Rat) (k : Int) : Int :=
  match fuel with
  | 0 => k
  | fuel + 1 => if (10 : Rat) ^ (k + 1) ≤ L then floorLog10Up fuel L (k + 1) else k

def floorLog10Down (fuel : Nat) (L : Rat) (k : Int) : Int :=
  match fuel with
  | 0 => k
  | fuel + 1 => if (10 : Rat) ^ k ≤ L then k else floorLog10Down fuel L (k - 1)

def floorLog10 (L : Rat) : Int :=
  if 1 ≤ L then floorLog10Up 400 L 0 else floorLog10Down 400 L (-1)

/-- The exact value of a binary64 bit pattern; `none` for infinities and NaNs. -/
def ofBits (b : UInt64) : Option Rat :=
  let sign : Rat := if b >>> 63 = 1 then -1 else 1
  let ex := ((b >>> 52) &&& 0x7ff).toNat
  let man := (b &&& 0xfffffffffffff).toNat
  if ex = 0x7ff then none
  else if ex = 0 then some (sign * (man : Rat) * (2 : Rat) ^ (-1074 : Int))
  else some (sign * ((man + 2 ^ 52 : Nat) : Rat) * (2 : Rat) ^ ((ex : Int) - 1075))

end Cgreen.Dbl
