/-
  Model of cgreen's comparators (src/constraint.c `compare_*`, src/string_comparison.c, the boolean
  expressions of the legacy assertions in src/assertions.c / include/cgreen/legacy.h), written the way
  the C is written: integers are pointer-sized two's-complement words, strings are byte lists without
  NUL, the string comparators go through models of `strcmp`, `strstr`, `strlen` and the `int` /
  `unsigned int` intermediates the C uses. Core Lean only.
-/
namespace Cgreen.Cmp

abbrev Word := BitVec 64
abbrev CStr := List UInt8

/-! ### libc, as far as the comparators use it -/

/-- `strcmp(a, b) == 0`. -/
def strcmpEq (a b : CStr) : Bool := a == b

/-- `strstr(h, n)`: offset of the first occurrence of `n` in `h`. -/
def strstr : CStr → CStr → Option Nat
  | [], n => if n.isEmpty then some 0 else none
  | c :: h, n => if n.isPrefixOf (c :: h) then some 0 else (strstr h n).map (· + 1)

/-- `memcmp(p, q, n) == 0` on the first `n` bytes. -/
def memcmpEq (p q : List UInt8) (n : Nat) : Bool := p.take n == q.take n

/-- Conversion of a `size_t`/`ptrdiff_t` to `unsigned int` and to `int` (32 bits). -/
def toU32 (n : Nat) : Nat := n % 2 ^ 32
def toI32 (n : Int) : Int := ((n + 2 ^ 31) % 2 ^ 32) - 2 ^ 31

/-! ### Integer comparators (`compare_want_value`, …) on `intptr_t` -/

def wantValue (e a : Word) : Bool := e == a
def doNotWantValue (e a : Word) : Bool := !wantValue e a
def wantGreater (e a : Word) : Bool := e.slt a          -- actual > expected
def wantLesser (e a : Word) : Bool := a.slt e           -- actual < expected

/-! ### String comparators -/

def stringsAreEqual (a e : Option CStr) : Bool :=
  match a, e with
  | none, none => true
  | some a, some e => strcmpEq a e
  | _, _ => false

def stringContains (a e : Option CStr) : Bool :=
  match a, e with
  | some a, some e => (strstr a e).isSome
  | _, _ => false

def NOT_FOUND : Nat := 2 ^ 32 - 1
/-- `static unsigned int strpos(haystack, needle)`. -/
def strpos (h n : CStr) : Nat :=
  match strstr h n with
  | some off => toU32 off
  | none => NOT_FOUND

def wantBeginning (e a : CStr) : Bool := strpos a e == 0
def doNotWantBeginning (e a : CStr) : Bool := strpos a e != 0

/-- `compare_want_end_of_string`: `int match_length = strlen(expected); int start = strlen(actual) - match_length; …`. -/
def wantEnd (e a : CStr) : Bool :=
  let matchLength := toI32 e.length
  let start := toI32 ((toI32 a.length) - matchLength)
  if start < 0 then false else strcmpEq (a.drop start.toNat) e
def doNotWantEnd (e a : CStr) : Bool := !wantEnd e a

/-! ### Memory comparators: `compare_want_contents`. `actual = none` is the NULL pointer. -/

def wantContents (e : List UInt8) (a : Option (List UInt8)) (size : Nat) : Bool :=
  match a with
  | none => false
  | some a => memcmpEq e a size
def doNotWantContents (e : List UInt8) (a : Option (List UInt8)) (size : Nat) : Bool :=
  match a with
  | none => false
  | some a => !wantContents e (some a) size

/-! ### The public names and what they are bound to (operand order: `macro(expected)` applied to `actual`) -/

inductive IntC | isEqualTo | isNotEqualTo | isGreaterThan | isLessThan | isNull | isNonNull | isTrue | isFalse
  | assertEqual | assertNotEqual | assertTrue | assertFalse
  deriving DecidableEq, Repr, Inhabited

/-- Verdict of an integer constraint / legacy assertion on (actual, expected). -/
def IntC.eval : IntC → Word → Word → Bool
  | .isEqualTo, a, e => wantValue e a
  | .isNotEqualTo, a, e => doNotWantValue e a
  | .isGreaterThan, a, e => wantGreater e a
  | .isLessThan, a, e => wantLesser e a
  | .isNull, a, _ => wantValue 0 a
  | .isNonNull, a, _ => doNotWantValue 0 a
  | .isTrue, a, _ => doNotWantValue 0 a
  | .isFalse, a, _ => wantValue 0 a
  | .assertEqual, a, e => a == e
  | .assertNotEqual, a, e => a != e
  | .assertTrue, a, _ => a != 0
  | .assertFalse, a, _ => !(a != 0)

inductive StrC | isEqualToString | isNotEqualToString | containsString | doesNotContainString
  | beginsWithString | doesNotBeginWithString | endsWithString | doesNotEndWithString
  | assertStringEqual | assertStringNotEqual
  deriving DecidableEq, Repr, Inhabited

def StrC.eval : StrC → CStr → CStr → Bool
  | .isEqualToString, a, e => stringsAreEqual (some e) (some a)
  | .isNotEqualToString, a, e => !stringsAreEqual (some e) (some a)
  | .containsString, a, e => stringContains (some a) (some e)
  | .doesNotContainString, a, e => !stringContains (some a) (some e)
  | .beginsWithString, a, e => wantBeginning e a
  | .doesNotBeginWithString, a, e => doNotWantBeginning e a
  | .endsWithString, a, e => wantEnd e a
  | .doesNotEndWithString, a, e => doNotWantEnd e a
  | .assertStringEqual, a, e => stringsAreEqual (some a) (some e)
  | .assertStringNotEqual, a, e => !stringsAreEqual (some a) (some e)

end Cgreen.Cmp
