/-
  Model of how cgreen produces the text of a failure message (src/message_formatting.c, the format
  strings handed to `assert_true` in src/assertions.c, src/constraint.c, src/mocks.c, and the reporter's
  final `vprintf`): percent doubling, a typed `printf` expansion that fails as soon as a conversion
  would read an argument that is not there or has another width, and the assembly of the message for a
  failed constraint. Strings are `List Char`. Core Lean only.
-/
namespace Cgreen.Fmt

abbrev Str := List Char

/-- `double_all_percent_signs_in`. -/
def doublePercent : Str → Str
  | [] => []
  | c :: s => if c == '%' then '%' :: '%' :: doublePercent s else c :: doublePercent s

/-- C types of variadic arguments as `printf` sees them (after default promotions). -/
inductive CType | cstr | int32 | long | dbl | ptr
  deriving DecidableEq, Repr, Inhabited

/-- A `printf` conversion, reduced to what matters here: which argument type it reads. -/
inductive Conv | s | d | ld | x | lx | f | pct | bad
  deriving DecidableEq, Repr, Inhabited

/-- The argument type a conversion reads (`none`: it reads nothing). -/
def Conv.reads : Conv → Option CType
  | .s => some .cstr | .d => some .int32 | .ld => some .long | .x => some .int32 | .lx => some .long
  | .f => some .dbl | .pct => none | .bad => none

/-- Parse one conversion specification after a `%`: flags/width digits, an optional `l`, the conversion
letter. Returns the conversion and the rest of the format. Anything else is `bad`. -/
def parseConv : Str → Conv × Str
  | '%' :: r => (.pct, r)
  | s =>
    let r := s.dropWhile (fun c => c.isDigit || c == '-' || c == '.' || c == '+' || c == ' ' || c == '#')
    match r with
    | 's' :: t => (.s, t)
    | 'd' :: t => (.d, t)
    | 'x' :: t => (.x, t)
    | 'f' :: t => (.f, t)
    | 'l' :: 'd' :: t => (.ld, t)
    | 'l' :: 'x' :: t => (.lx, t)
    | _ => (.bad, r)

/-- The conversions of a format string, in order (fuel: the length of the string). -/
def convsAux : Nat → Str → List Conv
  | 0, _ => []
  | _ + 1, [] => []
  | n + 1, c :: s =>
    if c == '%' then
      let r := parseConv s
      r.1 :: convsAux n r.2
    else convsAux n s

def convs (fmt : Str) : List Conv := convsAux (fmt.length + 1) fmt

/-- A format is well typed for its arguments when it has no malformed conversion and the argument
types its conversions read are a prefix of the argument types passed (extra arguments are harmless). -/
def wellTyped (fmt : Str) (args : List CType) : Bool :=
  let cs := convs fmt
  !cs.contains .bad && (cs.filterMap Conv.reads).isPrefixOf args

/-- The final `vprintf(message, no arguments)` of a reporter: `%%` prints `%`; any other conversion
would read an argument that does not exist (`none` = unrelated memory / crash). -/
def expandNoArgs : Str → Option Str
  | [] => some []
  | [c] => if c == '%' then none else some [c]
  | c :: d :: s =>
    if c == '%' then (if d == '%' then (expandNoArgs s).map ('%' :: ·) else none)
    else (expandNoArgs (d :: s)).map (c :: ·)

/-! ### The message of a failed constraint (`failure_message_for`, repaired form) -/

def decimal (v : Int) : Str := (toString v).toList

/-- The value-line templates of a constraint: the text before and after the actual value
(`actual_value_message`) and before and after the expected value (`expected_value_message`). -/
structure Tmpl where
  aLabel : Str
  aClose : Str
  eLabel : Str
  eClose : Str
  deriving Repr, Inhabited

def tExpected : Str := "Expected [".toList
def tTo : Str := "] to [".toList
def tClose : Str := "]".toList
def tOpen : Str := " [".toList
def tNl : Str := "\n".toList

/-- The literal text (`failure_message_for`): the constraint as a sentence with the source texts, then —
unless the constraint has no expected value to show (`is_null`, `is_true`, …) — the expected
expression's text, then — unless the actual expression's text already is the value — the actual
value and, for the non-negated forms, the expected value. -/
def literalMessage (showExpectedText showValues showExpectedValue : Bool) (t : Tmpl)
    (name actualText expectedText actualValue expectedValue : Str) : Str :=
  tExpected ++ actualText ++ tTo ++ name ++ tClose ++
    (if showExpectedText then
      tOpen ++ expectedText ++ tClose ++
        (if showValues then
          t.aLabel ++ actualValue ++ t.aClose ++
            (if showExpectedValue then tNl ++ t.eLabel ++ expectedValue ++ t.eClose else [])
         else [])
     else [])

/-- What `failure_message_for` returns: the literal message with every percent sign doubled. -/
def failureMessage (f1 f2 f3 : Bool) (t : Tmpl) (name actualText expectedText actualValue expectedValue : Str) : Str :=
  doublePercent (literalMessage f1 f2 f3 t name actualText expectedText actualValue expectedValue)

end Cgreen.Fmt
