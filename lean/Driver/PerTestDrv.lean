import CgreenModel.Model.PerTest
/-! Line protocol for per-test framework-state scenarios (same grammar as runner scenarios). -/
namespace Cgreen.Drv.PT
open Cgreen.PerTest

def parseFAct (tok : String) : Option (List FAct) :=
  match tok with
  | "P" => some [.check true]
  | "QI" => some [.check true]      -- the test checks that it finds SIGINT in its default disposition
  | "F" => some [.check false]
  | "MP" => some []                 -- honoured never_expect: one pass at tally (state-independent, not modelled here)
  | "MF" => some [.leave]
  | "MC" => some [.check true]      -- content-setting mock followed by a check of the content
  | "ML" => some [.setMode .loose]
  | "MG" => some [.setMode .learning]
  | "MS" => some [.setMode .strict]
  | "CU" => some [.callUnexpected]
  | "EC" => some [.expectAndCall]
  | "D" => some [.dblCheck]
  | "W" => some [.writeGlobal]
  | "R" => some [.readGlobal]
  | _ => if tok.startsWith "G" then (tok.drop 1).toNat?.map (fun n => [.setFigs n]) else none

structure Frame where
  subs : List (List (String × List FAct)) := []   -- flattened sub-suites, reversed
  tests : List (String × List FAct) := []         -- reversed

def Frame.flat (f : Frame) : List (String × List FAct) := f.subs.reverse.flatten ++ f.tests.reverse

structure PS where
  mode : String := "fork"
  stack : List Frame := []
  root : Option (List (String × List FAct)) := none
  err : Option String := none

def pline (ps : PS) (line : String) : PS :=
  let line := line.trimAscii.toString
  if line.isEmpty || line.startsWith "#" then ps else
  match line.splitOn " " with
  | ["cfg", _, mode] => { ps with mode := mode }
  | "begin" :: _ => { ps with stack := {} :: ps.stack }
  | ["end"] =>
    match ps.stack with
    | [] => { ps with err := some "end without begin" }
    | [f] => { ps with stack := [], root := some f.flat }
    | f :: g :: rest => { ps with stack := { g with subs := f.flat :: g.subs } :: rest }
  | "test" :: name :: _ :: ctx :: rest =>
    -- `body;setup;teardown`: a test with a context runs its setup, its body and its teardown as one script (the prologue that
    -- resets the framework's per-test state comes before the setup, the tally after the teardown)
    let parts := (" ".intercalate rest).splitOn ";"
    let body := if ctx = "1" then parts.getD 1 "" ++ " " ++ parts.headD "" ++ " " ++ parts.getD 2 "" else parts.headD ""
    match ((body.splitOn " ").filter (· ≠ "")).mapM parseFAct, ps.stack with
    | some acts, f :: fs => { ps with stack := { f with tests := (name, acts.flatten) :: f.tests } :: fs }
    | _, _ => { ps with err := some s!"bad test line {line}" }
  | _ => { ps with err := some s!"bad line {line}" }

def showRes : Res → String
  | .pass => "P" | .fail => "F" | .failTooMany => "T"

def runPerTest (lines : List String) : List String :=
  let ps := lines.foldl pline {}
  match ps.err, ps.root with
  | some e, _ => [s!"error {e}"]
  | none, none => ["error no tree"]
  | none, some ts =>
    let scripts := ts.map (·.2)
    let res :=
      if ps.mode = "fork" then runFork resetPerTest {} scripts
      else if ps.mode = "inproc" then runInproc resetPerTest {} scripts
      else
        let name := (ps.mode.drop 7).toString
        (ts.map (fun (n, t) => if n = name then runSingle resetPerTest t else []))
    let named := if ps.mode.startsWith "single:" then
        (ts.zip res).filter (fun ((n, _), _) => n = (ps.mode.drop 7).toString)
      else ts.zip res
    named.map (fun ((n, _), r) => s!"test {n} {" ".intercalate (r.map showRes)}")

end Cgreen.Drv.PT
