import CgreenModel.Model.Faults
namespace Cgreen.Drv.FL
open Cgreen Cgreen.Faults

def recOf : Char → Option Rec
  | 'P' => some .pass | 'F' => some .fail | 'S' => some .skipped | 'X' => some .exception | _ => none

/-- Block: `k <n|->` then `leg <t|s> <complete 0|1> <signalled 0|1> <records|->` lines; the final suite leg is
given explicitly like the others. Output: counters, what is left in the channel, reads made. -/
def runBlock (lines : List String) : String :=
  let step (acc : Option Nat × List Leg × Bool) (line : String) : Option Nat × List Leg × Bool :=
    match line.trimAscii.toString.splitOn " " with
    | ["k", n] => (n.toNat?, acc.2.1, acc.2.2)
    | ["leg", kind, c, sg, recs] =>
      let rs := if recs = "-" then [] else recs.toList.filterMap recOf
      (acc.1, acc.2.1 ++ [{ recs := rs, complete := c = "1", isTest := kind = "t", signalled := sg = "1" }], acc.2.2)
    | [""] => acc
    | _ => (acc.1, acc.2.1, true)
  let (k, legs, bad) := lines.foldl step (none, [], false)
  if bad then "bad-op" else
  let s := runPhases k legs
  s!"cnt {s.cnt.p} {s.cnt.f} {s.cnt.s} {s.cnt.e} left {s.pipe.length} reads {s.reads}"
end Cgreen.Drv.FL
