import CgreenModel.Lemmas.Runner
/-! Line protocol for runner scenarios (see harness/scenario.py for the grammar). -/
namespace Cgreen.Drv
open Cgreen

def parseAct (tok : String) : Option Act :=
  match tok with
  | "P" => some (.check true)
  | "QI" => some (.check true)      -- the test checks that it finds SIGINT in its default disposition
  | "F" => some (.check false)
  | "S" => some .skip
  | "MP" => some (.decl true)
  | "MF" => some (.decl false)
  | "E" => some (.die .exit0)
  | "U" => some (.die .uexit0)
  | "Z" => some (.die .overrun)
  | "ZD" => some (.die .overrun)
  | _ =>
    if tok.startsWith "K" then (tok.drop 1).toNat?.map (fun n => .die (.signal n))
    else if tok.startsWith "X" || tok.startsWith "Y" then some (.check false)      -- a failing check with a given message text
    else none

def parseActs (s : String) : Option (List Act) :=
  (s.splitOn " ").filter (fun t => t ≠ "" && t ≠ "IA" && t ≠ "HP" && t ≠ "IP" && t ≠ "MG" && t ≠ "ML" && t ≠ "MS") |>.mapM parseAct      -- IA: the test leaves SIGALRM ignored; HP: it starts a helper process of its own; MG/ML/MS: it switches the mock mode (no effect on what MP/MF report)

structure Frame where
  name : String
  su : Bool
  td : Bool
  subs : List Tree := []     -- reversed
  tests : List Test := []    -- reversed

def Frame.close (f : Frame) : Tree := .node f.name f.su f.td f.subs.reverse f.tests.reverse

structure KillLine where
  point : String
  occ : Nat
  how : String
  test : String

def howOf (h : String) : Death :=
  if h = "exit" then .exit0 else if h = "_exit" then .uexit0 else .signal (h.toNat?.getD 9)

def idxOf (l : List Step) (s : Step) : Nat := (l.findIdx? (· == s)).getD l.length

/-- Translate a kill line into the model's kill plan for a test under a suite with fixtures `su td`. -/
def planFor (k : KillLine) (su td : Bool) (t : Test) : Option KillPlan :=
  let sc := script su td t
  let d := howOf k.how
  match k.point with
  | "before_setup" => some { atStep := some 0, how := d }
  | "after_setup" => some { atStep := some (idxOf sc (.ev .body)), how := d }
  | "after_body" => some { atStep := some (idxOf sc (.ev .body) + 1 + t.body.length), how := d }
  | "after_teardown" => some { atStep := some (idxOf sc (.ev .tally)), how := d }
  | "after_tally" => some { atStep := some sc.length, how := d }
  | "before_write" => some { atWrite := some (k.occ, false), how := d }
  | "after_write" => some { atWrite := some (k.occ, true), how := d }
  | "after_completion" => some { late := true, how := d }
  | "at_exit" => some { late := true, how := d }
  | _ => none

structure PState where
  cfg : Cfg := {}
  kill : Option KillLine := none
  single : Option String := none
  stack : List Frame := []
  root : Option Tree := none
  err : Option String := none

def pline (ps : PState) (line : String) : PState :=
  let line := line.trimAscii.toString
  if line.isEmpty || line.startsWith "#" then ps else
  match line.splitOn " " with
  | ["cfg", cap, mode] =>
    match cap.toNat? with
    | none => { ps with err := some s!"bad cap {cap}" }
    | some c =>
      if mode = "fork" then { ps with cfg := { cap := c, mode := .fork } }
      else if mode = "inproc" then { ps with cfg := { cap := c, mode := .inproc } }
      else if mode.startsWith "single:" then
        { ps with cfg := { cap := c, mode := .inproc }, single := some (mode.drop 7).toString }
      else { ps with err := some s!"bad mode {mode}" }
  | ["file", _] => ps
  | "pre" :: _ => ps
  | "again" :: _ => ps
  | "fixture" :: _ => ps        -- scripted suite fixtures: the model treats suite fixtures as logging only
  | ["kill", point, occ, how, test] => { ps with kill := some { point := point, occ := occ.toNat?.getD 1, how := how, test := test } }
  | ["begin", name, su, td] => { ps with stack := { name := name, su := su = "1", td := td = "1" } :: ps.stack }
  | ["end"] =>
    match ps.stack with
    | [] => { ps with err := some "end without begin" }
    | [f] => { ps with stack := [], root := some f.close }
    | f :: g :: rest => { ps with stack := { g with subs := f.close :: g.subs } :: rest }
  | "test" :: name :: x :: ctx :: rest =>
    let body := " ".intercalate rest
    match body.splitOn ";" with
    | [b, s, d] =>
      match parseActs b, parseActs s, parseActs d, ps.stack with
      | some b, some s, some d, f :: fs =>
        let t : Test := { name := name, xskip := x = "1", ctx := if ctx = "1" then some (s, d) else none, body := b }
        let t := match ps.kill with
          | some k => if k.test = name then { t with kill := planFor k f.su f.td t } else t
          | none => t
        { ps with stack := { f with tests := t :: f.tests } :: fs }
      | _, _, _, _ => { ps with err := some s!"bad test line {line}" }
    | _ => { ps with err := some s!"bad test line {line}" }
  | _ => { ps with err := some s!"bad line {line}" }

def showPath (p : List String) : String := "/".intercalate p
def showCnt (c : Cnt) : String := s!"{c.p} {c.f} {c.s} {c.e}"
def showPhase : Phase → String
  | .suiteSetup => "suiteSetup" | .ctxSetup => "ctxSetup" | .body => "body"
  | .ctxTeardown => "ctxTeardown" | .suiteTeardown => "suiteTeardown" | .tally => "tally"
def showFinish : Finish → String
  | .received => "received" | .skippedSt => "skipped" | .notReceived => "notreceived"
def showDeath : Death → String
  | .signal n => s!"sig{n}" | .exit0 => "exit0" | .uexit0 => "uexit0" | .overrun => "overrun"

def showOut : Out → String
  | .suiteStart p => s!"suiteStart {showPath p}"
  | .testStart p => s!"testStart {showPath p}"
  | .ev n p ph => s!"ev {n} {showPath p} {showPhase ph}"
  | .failLines p n => s!"failLines {showPath p} {n}"
  | .excLine p => s!"excLine {showPath p}"
  | .testEnd p d st => s!"testEnd {showPath p} {showCnt d} {showFinish st}"
  | .suiteEnd p c => s!"suiteEnd {showPath p} {showCnt c}"
  | .totals c => s!"totals {showCnt c}"

def runScenario (lines : List String) : List String :=
  let ps := lines.foldl pline {}
  match ps.err, ps.root with
  | some e, _ => [s!"error {e}"]
  | none, none => ["error no tree"]
  | none, some t =>
    let s := match ps.single with
      | some n => runNamed ps.cfg n t
      | none => run ps.cfg t
    let truth := match ps.single with
      | some n => (t.restrict n).truth ps.cfg.cap
      | none => t.truth ps.cfg.cap
    let rec perTest (parent : List String) : Tree → List String
      | .node name su td subs tests =>
        let path := parent ++ [name]
        (subs.attach.map (fun ⟨c, _⟩ => perTest path c)).flatten ++
        (tests.map (fun t =>
          [s!"ttruth {showPath (path ++ [t.name])} {showCnt (t.truth ps.cfg.cap su td)} {if t.xskip then 0 else (runCode ps.cfg.cap [] su td t).fails}"] ++
          (if !t.xskip && (runCode ps.cfg.cap [] su td t).abnormal && (runCode ps.cfg.cap [] su td t).pipe.contains .skipped
           then [s!"notok {showPath (path ++ [t.name])}"] else []))).flatten
    let tt := match ps.single with
      | some n => perTest [] (t.restrict n)
      | none => perTest [] t
    [s!"halted {match s.halted with | some d => showDeath d | none => "-"}",
     s!"status {match verdict s with | some n => toString n | none => "-"}",
     s!"procend {match s.procEnd with | .returned n => s!"{n}" | .exited n => s!"exit{n}" | .killed n => s!"sig{n}"}",
     s!"truth {showCnt truth}",
     s!"pipeleft {s.pipe.length}"]
    ++ tt ++ s.out.map showOut

end Cgreen.Drv
