import CgreenModel.Model.Params
/-! Line protocol for the argument-list tokenizer (harness/tok_probe.c): one hex-encoded argument string per line. -/
namespace Cgreen.Drv.TK
open Cgreen.Params

def hexVal (c : Char) : Nat :=
  if c.isDigit then c.toNat - '0'.toNat else if 'a' ≤ c ∧ c ≤ 'f' then c.toNat - 'a'.toNat + 10 else c.toNat - 'A'.toNat + 10

def unhex (s : String) : List Char :=
  if s = "-" then [] else
  let rec go : List Char → List Char
    | a :: b :: rest => Char.ofNat (hexVal a * 16 + hexVal b) :: go rest
    | _ => []
  go s.toList

def evalLine (line : String) : String :=
  let s := unhex line.trimAscii.toString
  let ns := names s
  let ms := markers s
  s!"names {"|".intercalate (ns.map String.ofList)} markers {String.ofList (ms.map (fun b => if b then '1' else '0'))} count {paramCount s}"

end Cgreen.Drv.TK
