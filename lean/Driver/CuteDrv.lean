import CgreenModel.Model.Cute
/-! Line protocol: a block is `mode <fork|inproc>` followed by one line `<shown> <delivered> <0|1>` per test of a run, in the order
they run (failed checks shown in the test's process, failure records counted, abnormal end). Answer per test: its CUTE lines,
`S` starting, `F` failure, `E` error, `O` success. -/
namespace Cgreen.Drv.CT
open Cgreen.Cute

def lineChar : Line → Char
  | .starting => 'S' | .failure => 'F' | .error => 'E' | .success => 'O'

def parseTest (l : String) : Option (Nat × Nat × Bool) :=
  match l.trimAscii.toString.splitOn " " with
  | [s, d, a] => do
    let s ← s.toNat?
    let d ← d.toNat?
    some (s, d, a = "1")
  | _ => none

def runBlock (lines : List String) : List String :=
  match lines with
  | m :: rest =>
    let forked := m.trimAscii.toString = "mode fork"
    let ts := rest.filterMap parseTest
    (runTests startTest forked { errorCount := 0, previousError := false } { failures := 0, exceptions := 0 } ts).map
      (fun ls => String.ofList (ls.map lineChar))
  | [] => []

end Cgreen.Drv.CT
