import CgreenModel.Model.Lines
import Driver.TmoDrv
namespace Cgreen.Drv.DS
open Cgreen.Lines Cgreen.Sel

def hexDigit (n : Nat) : Char := if n < 10 then Char.ofNat (48 + n) else Char.ofNat (87 + n)
def hexOf (l : List Char) : String :=
  if l.isEmpty then "-" else String.ofList (l.flatMap fun c => [hexDigit (c.toNat / 16), hexDigit (c.toNat % 16)])

/-- `<size> <hex of the listing>`: whether every read stayed inside the buffer, and for each test found its context,
name and specification name. -/
def evalLine (line : String) : String :=
  match line.trimAscii.toString.splitOn " " with
  | [sz, h] =>
    match sz.toNat? with
    | some size =>
      let s := Cgreen.Drv.TM.unhex h
      let r := allLines (s.length + 1) size s
      let items := r.1.filterMap fun l =>
        match specOfLine l with
        | some spec => (parseSpec spec).map fun i => s!"{hexOf i.ctx}:{hexOf i.name}:{hexOf spec}"
        | none => none
      s!"safe={r.2} n={items.length} " ++ " ".intercalate items
    | none => "bad-op"
  | _ => "bad-op"
end Cgreen.Drv.DS
