import CgreenModel.Model.XmlBuf
/-! Line protocol: `<fork|inproc> <n> <S|E|->`: a test that shows `n` failure elements, after which the reporting process adds a skip
mark (`S`), an error element (`E`) or nothing. Answer: what `finish_test` transfers to the suite's file, elements written `<f0>`, `<s>`, `<e>`. -/
namespace Cgreen.Drv.XB
open Cgreen.XmlBuf

def evalLine (line : String) : String :=
  match line.trimAscii.toString.splitOn " " with
  | [mode, n, par] =>
    match n.toNat? with
    | some k =>
      let child := (List.range k).map (fun i => s!"<f{i}>".toList)
      let parent := if par = "S" then ["<s>".toList] else if par = "E" then ["<e>".toList] else []
      String.ofList (runTest (mode = "fork") .length { output := none } { file := none, suite := [] } child parent).2.2
    | none => "bad-op"
  | _ => "bad-op"

end Cgreen.Drv.XB
