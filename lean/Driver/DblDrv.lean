import CgreenModel.Model.Doubles
/-! Line protocol for double comparison (see harness/cmp_probe.c, `dbl` lines). Output: `<binary64 instance> <exact instance>`. -/
namespace Cgreen.Drv.DB
open Cgreen.Dbl

def hexToNat (s : String) : Nat :=
  s.toList.foldl (fun acc c =>
    acc * 16 + (if c.isDigit then c.toNat - '0'.toNat else if 'a' ≤ c ∧ c ≤ 'f' then c.toNat - 'a'.toNat + 10 else c.toNat - 'A'.toNat + 10)) 0

def evalWith {α : Type} (o : NumOps α) (name : String) (n : Int) (a e : α) : Option Bool :=
  if name = "eq" || name = "mockEq" then some (wantDouble o n e a)
  else if name = "legacyEq" || name = "legacyEqMsg" then some (doublesAreEqual o n a e)     -- assert_double_equal_(tried, expected)
  else if name = "ne" || name = "mockNe" then some (doNotWantDouble o n e a)
  else if name = "legacyNe" || name = "legacyNeMsg" then some (!doublesAreEqual o n a e)
  else if name = "lt" || name = "mockLt" then some (wantLesserDouble o n e a)
  else if name = "gt" || name = "mockGt" then some (wantGreaterDouble o n e a)
  else none

def showB : Option Bool → String
  | some true => "1" | some false => "0" | none => "?"

def evalLine (line : String) : String :=
  match (line.trimAscii.toString.splitOn " ").filter (· ≠ "") with
  | ["dbl", name, figs, ha, he] =>
    match figs.toInt? with
    | some n =>
      let ba := UInt64.ofNat (hexToNat ha); let be := UInt64.ofNat (hexToNat he)
      let fl := showB (evalWith floatOps name n (Float.ofBits ba) (Float.ofBits be))
      let ex := match ofBits ba, ofBits be with
        | some a, some e => showB (evalWith (ratOps floorLog10) name n a e)
        | _, _ => "nonfinite"
      s!"{fl} {ex}"
    | none => "? ?"
  | _ => "? ?"

end Cgreen.Drv.DB
