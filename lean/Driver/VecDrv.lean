import CgreenModel.Model.Vector
/-! Line protocol for vector operations (harness/vec_ops.c): `a <x>`, `r <pos>`, `g <pos>`; output the result (`-` for none) and the size. -/
namespace Cgreen.Drv.VC
open Cgreen.Vec

def runLines (stp : Nat) (lines : List String) : List String :=
  let rec go (v : Vec) : List String → List String
    | [] => []
    | l :: ls =>
      match (l.trimAscii.toString.splitOn " ").filter (· ≠ "") with
      | [k, n] =>
        match n.toNat? with
        | some n =>
          let op := if k = "a" then Op.add n else if k = "r" then Op.remove n else Op.get n
          let r := step stp v op
          let bad := r.2.2.any (fun a => decide (a.1 ≥ a.2))
          s!"{match r.2.1 with | some x => toString x | none => "-"} {r.1.size}{if bad then " OOB" else ""}" :: go r.1 ls
        | none => ["error"]
      | _ => go v ls
  go {} lines

end Cgreen.Drv.VC
