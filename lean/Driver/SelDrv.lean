import CgreenModel.Model.Select
/-! Line protocol for cgreen-runner selection (see harness/props.py check_C09). -/
namespace Cgreen.Drv.SL
open Cgreen.Sel

def parseItem (tok : String) : Item :=
  match tok.splitOn ":" with
  | [c, n] => ⟨c.toList, n.toList⟩
  | _ => ⟨"default".toList, tok.toList⟩

def showItem (lib : Str) (i : Item) : String := String.ofList lib ++ "/" ++ String.ofList i.ctx ++ ":" ++ String.ofList i.name

/-- Tests whose name ends in `_fails` fail. -/
def failsFn (i : Item) : Bool := "_fails".toList.isSuffixOf i.name

def runBlock (lines : List String) : List String :=
  let libs : List (Str × List Item) := lines.filterMap fun l =>
    match (l.trimAscii.toString.splitOn " ").filter (· ≠ "") with
    | "lib" :: name :: items => some (name.toList, items.map parseItem)
    | _ => none
  let args : List Str := (lines.filterMap fun l =>
    match (l.trimAscii.toString.splitOn " ").filter (· ≠ "") with
    | "run" :: as => some (as.map String.toList)
    | _ => none).flatten
  let exists_ : Str → Bool := fun n => libs.any (·.1 == n)
  let libOf : Str → List Item := fun n => ((libs.find? (·.1 == n)).map (·.2)).getD []
  let pairs := scanArgs exists_ args
  -- executed, tagged with the library they came from
  let rec go : List (Str × Option Str) → List String × Bool
    | [] => ([], false)
    | (l, p) :: rest =>
      if !exists_ l then ([], true) else
      let o := runLibrary (libOf l) p failsFn
      let r := go rest
      (o.executed.map (showItem l) ++ r.1, o.failure || r.2)
  let r := go pairs
  ["executed " ++ " ".intercalate (r.1.toArray.qsort (· < ·)).toList, s!"status {if r.2 then 1 else 0}"]

end Cgreen.Drv.SL
