import CgreenModel.Model.Mocks
/-! Line protocol for mock operation sequences (see harness/mock_ops.c). -/
namespace Cgreen.Drv.MK
open Cgreen.Mocks

def parseCmp : String → Option Cmp
  | "eq" => some .eq | "ne" => some .ne | "lt" => some .lt | "gt" => some .gt | _ => none

structure DeclArgs where
  times : Option Int := none
  ret : Int := 0
  cons : List Con := []
  side : Option (Nat × List Int) := none

def parseDeclArg (d : DeclArgs) (tok : String) : Option DeclArgs :=
  if tok.startsWith "t" then (tok.drop 1).toString.toInt?.map (fun n => { d with times := some n })
  else if tok.startsWith "r" then (tok.drop 1).toString.toInt?.map (fun n => { d with ret := n })
  else if tok.startsWith "s" then
    -- s<g>:<a0>,<a1>,…   side effect: callback calls mocked function g
    match (tok.drop 1).toString.splitOn ":" with
    | [g, as] =>
      match g.toNat?, ((as.splitOn ",").filter (· ≠ "")).mapM (·.toInt?) with
      | some g, some a => some { d with side := some (g, a) }
      | _, _ => none
    | [g] => g.toNat?.map (fun g => { d with side := some (g, []) })
    | _ => none
  else if tok.startsWith "w" then
    match (tok.drop 1).toString.splitOn ":" with
    | [p, op, v] =>
      match p.toNat?, parseCmp op, v.toInt? with
      | some p, some op, some v => some { d with cons := d.cons ++ [{ param := p, op := op, val := v }] }
      | _, _, _ => none
    | _ => none
  else none

def parseOpS (line : String) : Option (Op × Option (Nat × List Int)) :=
  match (line.trimAscii.toString.splitOn " ").filter (· ≠ "") with
  | kind :: f :: rest =>
    if kind = "expect" || kind = "always" || kind = "never" then do
      let f ← f.toNat?
      let d ← rest.foldlM parseDeclArg {}
      match kind with
      | "expect" => pure (.decl (.expect d.times) f d.ret d.cons, d.side)
      | "always" => pure (.decl .always f d.ret d.cons, d.side)
      | _ => pure (.decl .never f d.ret d.cons, none)
    else none
  | _ => none

def parseOp (line : String) : Option Op :=
  match (line.trimAscii.toString.splitOn " ").filter (· ≠ "") with
  | ["mode", "strict"] => some (.mode .strict)
  | ["mode", "loose"] => some (.mode .loose)
  | ["mode", "learning"] => some (.mode .learning)
  | ["tally"] => some .tally
  | "call" :: f :: args => do
      let f ← f.toNat?
      let a ← args.mapM (·.toInt?)
      pure (.call f a)
  | kind :: f :: rest => do
      let f ← f.toNat?
      let d ← rest.foldlM parseDeclArg {}
      match kind with
      | "expect" => pure (.decl (.expect d.times) f d.ret d.cons)
      | "always" => pure (.decl .always f d.ret d.cons)
      | "never" => pure (.decl .never f d.ret d.cons)
      | _ => none
  | _ => none

def showOut : Out → String
  | .check (some i) ok => s!"c{i}:{if ok then 1 else 0}"
  | .check none ok => s!"cU:{if ok then 1 else 0}"
  | .ret v => s!"r{v}"

def showExp (e : Exp) : String := s!"(f{e.fn},{e.ttl},{e.called},{e.triggered})"

/-- The specification side: per-function queues; the tally line lists the checks of all functions
ordered by declaration id. -/
def specLines (lines : List String) : List String :=
  let rec go (s : SState) : List String → List String
    | [] => []
    | l :: ls =>
      if l.trimAscii.toString.isEmpty then go s ls else
      match parseOp l with
      | none => [s!"error bad op {l}"]
      | some op =>
        let r := match op, parseOpS l with
          | .decl k f rv c, some (_, side) =>
            let r0 := specStep s op
            -- attach the side effect to the entry just appended to f's FIFO (if the declaration was accepted)
            if r0.2.isEmpty then
              let s1 : SState := r0.1
              let qf := s1.qs f
              let qf' : List Exp := qf.dropLast ++ (qf.getLast?.map (fun (e : Exp) => ({ e with side := side } : Exp))).toList
              (({ s1 with qs := fun g => if g = f then qf' else s1.qs g } : SState), r0.2)
            else r0
          | .call f a, _ => specCallS 6 s f a
          | _, _ => specStep s op
        let outs := match op with
          | .tally =>
            let all := (List.range 8).flatMap (fun g => specTally s g)
            let key : Out → Nat := fun o => match o with | .check (some i) _ => i | _ => 0
            (all.toArray.qsort (fun a b => key a < key b)).toList
          | _ => r.2
        s!"out {" ".intercalate (outs.map showOut)}" :: go r.1 ls
  go {} lines

def runLines (lines : List String) : List String :=
  let rec go (s : MState) : List String → List String
    | [] => []
    | l :: ls =>
      if l.trimAscii.toString.isEmpty then go s ls else
      match parseOp l with
      | none => [s!"error bad op {l}"]
      | some op =>
        let r := match op, parseOpS l with
          | .decl k f rv c, some (_, side) => declareS s k f rv c side
          | .call f a, _ => callS 6 s f a
          | _, _ => step s op
        s!"out {" ".intercalate (r.2.map showOut)} | q {"".intercalate (r.1.q.map showExp)}" :: go r.1 ls
  go {} lines

end Cgreen.Drv.MK
