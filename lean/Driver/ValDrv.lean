import CgreenModel.Model.Values
/-! Line protocol for values through mocks (harness/val_probe.c): `cap <size> <v>` and `setc <bufsize> <offset> <size> <hex src>`. -/
namespace Cgreen.Drv.VL
open Cgreen.Val

def hexVal (c : Char) : Nat :=
  if c.isDigit then c.toNat - '0'.toNat else if 'a' ≤ c ∧ c ≤ 'f' then c.toNat - 'a'.toNat + 10 else c.toNat - 'A'.toNat + 10
def unhex (s : String) : List UInt8 :=
  if s = "-" then [] else
  let rec go : List Char → List UInt8
    | a :: b :: rest => UInt8.ofNat (hexVal a * 16 + hexVal b) :: go rest
    | _ => []
  go s.toList
def hexDigit (n : Nat) : Char := if n < 10 then Char.ofNat (48 + n) else Char.ofNat (87 + n)
def tohex (bs : List UInt8) : String := String.ofList (bs.flatMap (fun b => [hexDigit (b.toNat / 16), hexDigit (b.toNat % 16)]))

def evalLine (line : String) : String :=
  match (line.trimAscii.toString.splitOn " ").filter (· ≠ "") with
  | ["cap", size, v] =>
    match size.toNat?, v.toInt? with
    | some n, some v =>
      -- a guarded variable: 8 guard bytes 0xAA, the variable (initially 0xCC), 8 guard bytes
      let m0 : Mem := fun a => if a < 8 ∨ a ≥ 8 + n then 0xAA else 0xCC
      let m := captureLE m0 8 (BitVec.ofInt 64 v) n
      tohex (readBytes m 0 (16 + n))
    | _, _ => "?"
  | ["setc", bufsize, off, size, src] =>
    match bufsize.toNat?, off.toNat?, size.toNat? with
    | some b, some o, some n =>
      let m0 : Mem := fun _ => 0xAA
      tohex (readBytes (setContents m0 o (unhex src) n) 0 b)
    | _, _, _ => "?"
  | _ => "?"

end Cgreen.Drv.VL
