import CgreenModel.Model.Format
/-! Line protocol for failure messages: `msg f1 f2 f3 <9 hex fields>`; output: hex of the literal message and
whether printing the percent-doubled message without arguments gives exactly that. -/
namespace Cgreen.Drv.FM
open Cgreen.Fmt

def hexVal (c : Char) : Nat :=
  if c.isDigit then c.toNat - '0'.toNat else if 'a' ≤ c ∧ c ≤ 'f' then c.toNat - 'a'.toNat + 10 else c.toNat - 'A'.toNat + 10

def unhex (s : String) : Str :=
  if s = "-" then [] else
  let rec go : List Char → List Char
    | a :: b :: rest => Char.ofNat (hexVal a * 16 + hexVal b) :: go rest
    | _ => []
  go s.toList

def hexDigit (n : Nat) : Char := if n < 10 then Char.ofNat (48 + n) else Char.ofNat (87 + n)
def tohex (s : Str) : String := String.ofList (s.flatMap (fun c => [hexDigit (c.toNat / 16), hexDigit (c.toNat % 16)]))

def evalLine (line : String) : String :=
  match (line.trimAscii.toString.splitOn " ").filter (· ≠ "") with
  | ["msg", f1, f2, f3, name, al, ac, el, ec, atx, etx, av, ev] =>
    let t : Tmpl := { aLabel := unhex al, aClose := unhex ac, eLabel := unhex el, eClose := unhex ec }
    let lit := literalMessage (f1 = "1") (f2 = "1") (f3 = "1") t (unhex name) (unhex atx) (unhex etx) (unhex av) (unhex ev)
    let printed := expandNoArgs (failureMessage (f1 = "1") (f2 = "1") (f3 = "1") t (unhex name) (unhex atx) (unhex etx) (unhex av) (unhex ev))
    s!"{tohex lit} {if printed = some lit then "ok" else "MISMATCH"}"
  | _ => "?"

end Cgreen.Drv.FM
