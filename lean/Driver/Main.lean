import Driver.Scenario
import Driver.PerTestDrv
import Driver.MocksDrv
import Driver.CmpDrv
import Driver.DblDrv
import Driver.VecDrv
import Driver.TokDrv
import Driver.FmtDrv
import Driver.ValDrv
import Driver.SelDrv
import Driver.TmoDrv
import Driver.DiscDrv
import Driver.XmlDrv
import Driver.FaultsDrv
import Driver.LegsDrv
import Driver.SigDrv
import Driver.XmlBufDrv
import Driver.CuteDrv
open Cgreen.Drv

/-- Read all of stdin as lines. -/
partial def readLines (h : IO.FS.Stream) (acc : Array String) : IO (Array String) := do
  let line ← h.getLine
  if line.isEmpty then return acc
  readLines h (acc.push ((line.dropEndWhile (· == (Char.ofNat 10))).toString))

/-- Blocks of input separated by lines `---`; each block is answered by its output lines and `---`. -/
def blocks (lines : List String) : List (List String) :=
  let (cur, acc) := lines.foldl (fun (cur, acc) l => if l = "---" then ([], cur.reverse :: acc) else (l :: cur, acc)) ([], [])
  (if cur.isEmpty then acc else cur.reverse :: acc).reverse

def main (args : List String) : IO UInt32 := do
  let stdin ← IO.getStdin
  let lines := (← readLines stdin #[]).toList
  let out ← IO.getStdout
  match args with
  | ["scenario"] =>
    for b in blocks lines do
      for l in runScenario b do out.putStrLn l
      out.putStrLn "---"
    return 0
  | ["pertest"] =>
    for b in blocks lines do
      for l in Cgreen.Drv.PT.runPerTest b do out.putStrLn l
      out.putStrLn "---"
    return 0
  | ["vec", stp] =>
    for b in blocks lines do
      for l in Cgreen.Drv.VC.runLines (stp.toNat?.getD 100) b do out.putStrLn l
      out.putStrLn "---"
    return 0
  | ["xml"] =>
    for l in lines do out.putStrLn (Cgreen.Drv.XM.evalLine l)
    return 0
  | ["discover"] =>
    for l in lines do out.putStrLn (Cgreen.Drv.DS.evalLine l)
    return 0
  | ["sigint"] =>
    for l in lines do out.putStrLn (Cgreen.Drv.SG.evalLine l)
    return 0
  | ["cute"] =>
    for b in blocks lines do
      for l in Cgreen.Drv.CT.runBlock b do out.putStrLn l
      out.putStrLn "---"
    return 0
  | ["xmlbuf"] =>
    for l in lines do out.putStrLn (Cgreen.Drv.XB.evalLine l)
    return 0
  | ["timeout"] =>
    for l in lines do out.putStrLn (Cgreen.Drv.TM.evalLine l)
    return 0
  | ["legs"] =>
    for b in blocks lines do
      for l in Cgreen.Drv.LG.legsOfScenario b do out.putStrLn l
      out.putStrLn "---"
    return 0
  | ["faults"] =>
    for b in blocks lines do
      out.putStrLn (Cgreen.Drv.FL.runBlock b)
    return 0
  | ["select"] =>
    for b in blocks lines do
      for l in Cgreen.Drv.SL.runBlock b do out.putStrLn l
      out.putStrLn "---"
    return 0
  | ["val"] =>
    for l in lines do out.putStrLn (Cgreen.Drv.VL.evalLine l)
    return 0
  | ["fmt"] =>
    for l in lines do out.putStrLn (Cgreen.Drv.FM.evalLine l)
    return 0
  | ["tok"] =>
    for l in lines do out.putStrLn (Cgreen.Drv.TK.evalLine l)
    return 0
  | ["dbl"] =>
    for l in lines do out.putStrLn (Cgreen.Drv.DB.evalLine l)
    return 0
  | ["cmp"] =>
    for l in lines do out.putStrLn (Cgreen.Drv.CM.evalLine l)
    return 0
  | ["mockspec"] =>
    for b in blocks lines do
      for l in Cgreen.Drv.MK.specLines b do out.putStrLn l
      out.putStrLn "---"
    return 0
  | ["mocks"] =>
    for b in blocks lines do
      for l in Cgreen.Drv.MK.runLines b do out.putStrLn l
      out.putStrLn "---"
    return 0
  | _ =>
    IO.eprintln "usage: modeldrv scenario|pertest|mocks < input"
    return 2
