import CgreenModel.Model.Timeout
namespace Cgreen.Drv.TM
open Cgreen.Tmo
def hexVal (c : Char) : Nat :=
  if c.isDigit then c.toNat - '0'.toNat else if 'a' ≤ c ∧ c ≤ 'f' then c.toNat - 'a'.toNat + 10 else c.toNat - 'A'.toNat + 10
def unhex (s : String) : List Char :=
  if s = "-" then [] else
  let rec go : List Char → List Char
    | a :: b :: rest => Char.ofNat (hexVal a * 16 + hexVal b) :: go rest
    | _ => []
  go s.toList
def evalLine (line : String) : String :=
  match parseTimeout (unhex line.trimAscii.toString) with
  | some _ => "valid" | none => "invalid"
end Cgreen.Drv.TM
