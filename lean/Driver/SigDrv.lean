import CgreenModel.Model.Signals
/-! Line protocol: `<D|I|H> <flags>` - the disposition of SIGINT the test program starts with and one character per test in the
order the runner meets them (`1` switched off, `0` run). Answer: what each test's process starts with (`-` for a test not run). -/
namespace Cgreen.Drv.SG
open Cgreen.Sig

def dispOf : String → Disp
  | "I" => .ign
  | "H" => .handled
  | _ => .dfl

def showD : Option Disp → Char
  | none => '-'
  | some .dfl => 'D'
  | some .ign => 'I'
  | some .handled => 'H'

def evalLine (line : String) : String :=
  match line.trimAscii.toString.splitOn " " with
  | [d, flags] => String.ofList (((runTests allowCtrlC { cur := dispOf d } (flags.toList.map (· == '1'))).1).map showD)
  | [d] => if d = "" then "bad-op" else ""
  | _ => "bad-op"

end Cgreen.Drv.SG
