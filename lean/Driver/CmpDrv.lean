import CgreenModel.Model.Compare
/-! Line protocol for comparators (see harness/cmp_probe.c). -/
namespace Cgreen.Drv.CM
open Cgreen.Cmp

def hexVal (c : Char) : Nat :=
  if c.isDigit then c.toNat - '0'.toNat else if 'a' ≤ c ∧ c ≤ 'f' then c.toNat - 'a'.toNat + 10 else c.toNat - 'A'.toNat + 10

def unhex (s : String) : List UInt8 :=
  if s = "-" then [] else
  let rec go : List Char → List UInt8
    | a :: b :: rest => UInt8.ofNat (hexVal a * 16 + hexVal b) :: go rest
    | _ => []
  go s.toList

def intC : String → Option IntC
  | "isEqualTo" => some .isEqualTo | "isNotEqualTo" => some .isNotEqualTo | "isGreaterThan" => some .isGreaterThan
  | "isLessThan" => some .isLessThan | "isNull" => some .isNull | "isNonNull" => some .isNonNull
  | "isTrue" => some .isTrue | "isFalse" => some .isFalse | "assertEqual" => some .assertEqual
  | "assertNotEqual" => some .assertNotEqual | "assertTrue" => some .assertTrue | "assertFalse" => some .assertFalse
  | "assertEqualMsg" => some .assertEqual | "assertNotEqualMsg" => some .assertNotEqual | "isEqualToHex" => some .isEqualTo
  | "assertTrueMsg" => some .assertTrue | "assertFalseMsg" => some .assertFalse
  | _ => none

def strC : String → Option StrC
  | "isEqualToString" => some .isEqualToString | "isNotEqualToString" => some .isNotEqualToString
  | "containsString" => some .containsString | "doesNotContainString" => some .doesNotContainString
  | "beginsWithString" => some .beginsWithString | "doesNotBeginWithString" => some .doesNotBeginWithString
  | "endsWithString" => some .endsWithString | "doesNotEndWithString" => some .doesNotEndWithString
  | "assertStringEqual" => some .assertStringEqual | "assertStringNotEqual" => some .assertStringNotEqual
  | "assertStringEqualMsg" => some .assertStringEqual | "assertStringNotEqualMsg" => some .assertStringNotEqual
  | _ => none

def b (x : Bool) : String := if x then "1" else "0"

def evalLine (line : String) : String :=
  match (line.trimAscii.toString.splitOn " ").filter (· ≠ "") with
  | ["int", name, a, e] =>
    match intC name, a.toInt?, e.toInt? with
    | some c, some a, some e => b (c.eval (BitVec.ofInt 64 a) (BitVec.ofInt 64 e))
    | _, _, _ => "?"
  | ["str", name, a, e] =>
    match strC name with
    | some c => b (c.eval (unhex a) (unhex e))
    | none => "?"
  | ["mem", pn, size, e, a] =>
    match size.toNat? with
    | some n =>
      let act := if a = "NULL" then none else some (unhex a)
      if pn = "pos" then b (wantContents (unhex e) act n) else b (doNotWantContents (unhex e) act n)
    | none => "?"
  | _ => "?"

end Cgreen.Drv.CM
