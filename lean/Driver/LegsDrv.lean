import CgreenModel.Lemmas.Link
import Driver.Scenario
namespace Cgreen.Drv.LG
open Cgreen Cgreen.Faults Cgreen.Drv

def showRec : Rec → String
  | .pass => "P" | .fail => "F" | .skipped => "S" | .exception => "X" | .completion => "C"

def showLeg (l : Leg) : String :=
  let recs := String.join (l.recs.map showRec)
  s!"leg {if l.isTest then "t" else "s"} {if l.complete then 1 else 0} {if l.signalled then 1 else 0} {if recs.isEmpty then "-" else recs}"

/-- The legs of a scenario's tree (`Tree.legs`), one per line, in the format of the `faults` command. -/
def legsOfScenario (lines : List String) : List String :=
  let ps := lines.foldl pline {}
  match ps.err, ps.root with
  | some e, _ => [s!"error {e}"]
  | none, none => ["error no tree"]
  | none, some t =>
    let t := match ps.single with | some n => t.restrict n | none => t
    (t.legs ps.cfg.cap).map showLeg
end Cgreen.Drv.LG
