import CgreenModel.Model.Xml
import Driver.TmoDrv
namespace Cgreen.Drv.XM
open Cgreen.Xml

def unhexN (s : String) : List Nat := (Cgreen.Drv.TM.unhex s).map Char.toNat
def hexOf (l : List Nat) : String :=
  if l.isEmpty then "-" else String.ofList (l.flatMap fun b => [Char.ofNat (hexDigit (b / 16)), Char.ofNat (hexDigit (b % 16))])

/-- `x <hex>`: plain XML reporter, a failure message: escaped bytes, decoded bytes, well-formedness;
`n <hex>`: same for a name (no cut); `l <hex>`: libxml2 reporter: code points. -/
def evalLine (line : String) : String :=
  match line.trimAscii.toString.splitOn " " with
  | ["x", h] => let a := attrOfMessage (unhexN h); s!"{hexOf a} {hexOf (decode a)} {attrOk a}"
  | ["n", h] => let a := escape (unhexN h); s!"{hexOf a} {hexOf (decode a)} {attrOk a}"
  | ["l", h] => " ".intercalate ((escapeProp (unhexN h)).map toString)
  | _ => "bad-op"
end Cgreen.Drv.XM
