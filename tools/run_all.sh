#!/bin/sh
# usage: tools/run_all.sh [quick|thorough]   runs every check in turn against /repo's working tree, prints the verdict lines
tier="${1:-quick}"
cd "$(dirname "$0")/.."
for p in C01 C02 C03 C04 C05 C06 C07 C08 C09 C10 C11 C12 C13 C14 C15 C16 C17 C18 C19 C20; do
  s=$(date +%s)
  ./check $p --tier $tier > /tmp/run_all_$p.log 2>&1; rc=$?
  e=$(date +%s)
  echo "$(tail -1 /tmp/run_all_$p.log)  [rc=$rc, $((e-s)) s]"
  grep "^VIOLATION" /tmp/run_all_$p.log | head -3 | cut -c1-300
done
