#!/bin/sh
# usage: tools/try_mutant.sh <patch.diff> <prop> [<prop> ...]   — applies the patch to /repo, runs the quick checks, reverts.
patch="$1"; shift
cd /repo || exit 2
if ! git diff --quiet; then echo "/repo has uncommitted changes"; exit 2; fi
if ! git apply --check "$patch" 2>/dev/null; then echo "PATCH DOES NOT APPLY: $patch"; exit 3; fi
git apply "$patch"
cd /verif
for p in "$@"; do
  out=$(VERIF_NO_EVIDENCE=1 VERIF_SEED=${VERIF_SEED:-1} ./check "$p" --tier "${TIER:-quick}" 2>&1)
  rc=$?
  echo "== $p exit=$rc"; echo "$out" | grep -E "^VIOLATION|^KNOWN" | cut -c1-260 | head -4
done
git -C /repo checkout -- . ; git -C /repo reset -q
