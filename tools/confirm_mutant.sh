#!/bin/sh
# usage: tools/confirm_mutant.sh <mutant-dir> <seeded-id> <property> [<ported-patch>]
# Confirms a seeded change in a scratch worktree of /repo's HEAD (never in /repo): clean tree -> demo passes;
# patched tree -> builds, ctest 30/30, demo fails. Writes /verif/seeded/<id>/ on success.
set -u
src="$1"; id="$2"; prop="$3"; patch="${4:-$src/patch.diff}"
wt=/tmp/scratch-$id
log=/tmp/confirm-$id.log
: > $log
git -C /repo worktree remove --force $wt >/dev/null 2>&1
git -C /repo worktree add -q --detach $wt HEAD || exit 2
cleanup() { git -C /repo worktree remove --force $wt >/dev/null 2>&1; rm -rf $wt; }
build() { (cd $wt && cmake -G Ninja -S . -B _build -DCMAKE_BUILD_TYPE=RelWithDebInfo >/dev/null 2>&1 && cmake --build _build >>$log 2>&1); }
build || { echo "$id: clean build failed"; cleanup; exit 2; }
sh $src/run_demo.sh $wt >>$log 2>&1; clean_rc=$?
(cd $wt && git apply --check "$patch" 2>>$log) || { echo "$id: patch does not apply to HEAD"; cleanup; exit 3; }
(cd $wt && git apply "$patch")
build || { echo "$id: patched build failed"; cleanup; exit 2; }
ct=$(cd $wt && ctest --test-dir _build -j8 --timeout 900 2>&1 | grep "tests passed")
sh $src/run_demo.sh $wt >>$log 2>&1; mut_rc=$?
echo "$id: demo clean=$clean_rc patched=$mut_rc ctest='$ct'"
case "$ct" in "100% tests passed, 0 tests failed out of 30") ok=1;; *) ok=0;; esac
if [ $clean_rc -eq 0 ] && [ $mut_rc -ne 0 ] && [ $ok -eq 1 ]; then
  d=/verif/seeded/$id; mkdir -p $d
  cp -r $src/. $d/
  if [ "$patch" != "$src/patch.diff" ]; then mv $d/patch.diff $d/patch.orig.diff; cp "$patch" $d/patch.diff; fi
  cat > $d/meta.json <<EOM
{"id": "$id", "property": "$prop", "applies_to": "/repo HEAD $(git -C /repo rev-parse --short HEAD)",
 "confirmed": {"demo_on_clean_tree_exit": $clean_rc, "demo_on_patched_tree_exit": $mut_rc, "ctest_patched": "$ct",
  "how": "tools/confirm_mutant.sh in a scratch worktree of /repo HEAD (cmake+ninja build, ctest -j8, run_demo.sh)"},
 "needs_to_manifest": "see README.md", "ported": $([ "$patch" != "$src/patch.diff" ] && echo true || echo false)}
EOM
  echo "$id: KEPT"
else
  echo "$id: NOT KEPT"
fi
cleanup
