#!/usr/bin/env python3
"""Regenerates /verif/MANIFEST.json from the table below (kept in one place so it stays valid)."""
import json, os, subprocess
V = os.path.dirname(os.path.dirname(os.path.abspath(__file__)))
props = [json.loads(l) for l in open(os.path.join(V, "properties.jsonl"))]

RUNNER_NOTE = ("Trusted: Lean kernel (axioms propext, Classical.choice, Quot.sound only; audited every run), the scenario harness "
               "(harness/scenario_run.c, harness/scenario.py) and its output parsers. Modelled, not verified: fork copies the parent's state, "
               "wait() returns after the child ended, one 16-byte record is written atomically and FIFO into a pipe whose capacity is measured, "
               "signal delivery; suite-level fixtures are modelled as logging only.")

CHECKS = {
 "C01": dict(technique="Lean 4 refinement proof (run = truth) + differential correspondence of the model with libcgreen on generated scenarios",
   text="Theorems C01_verdict/C01_process/C01_anywhere (Props/C01.lean): for every suite tree, capacity and mode the model's verdict is failure iff some test's own truth has a failure or an exception; tie: Model.Runner is executed against the real library on generated suite trees x behaviours x reporters x modes, and the verdict oracle is evaluated on every real run.",
   ref="§6 C01"),
 "C02": dict(technique="Lean 4 proof over all death points/histories + kill-point hook driven correspondence",
   text="Theorems C02_one_exception, C02_delivered_counted, C02_verdict, C02_others_unaffected (Props/C02.lean) for every death point (any script position, named framework points, before/after any record write, after the completion notice) and way of dying; tie: the CGREEN_VERIF kill-point hook makes the real child die at exactly those points, outputs and a with/without differential are compared.",
   ref="§6 C02"),
 "C03": dict(technique="Lean 4 refinement proof (channel empty at every test boundary) + correspondence",
   text="Theorems C03_totals, C03_results, C03_subtotals, C03_status, C03_channel_empty (Props/C03.lean): the result lines and totals of a run are the list computed from the tree alone; tie: totals, per-suite lines, failure/exception attribution and CUTE per-test status parsed from real runs are compared with the model and judged against the spec.",
   ref="§6 C03"),
 "C08": dict(technique="Lean 4 proof about the event trace of every test + event-log correspondence in three execution modes",
   text="Theorems C08_order, C08_complete, C08_one_process, C08_brackets (Props/C08.lean): the phases of a test are a prefix of setup/body/teardown/tally (all of them when it completes) in one process, for every kill plan; tie: scripted fixtures/bodies write an event log (pid, path, phase) in fork, CGREEN_NO_FORK and run_single_test runs, compared with the model and judged by an independent oracle.",
   ref="§6 C08"),
 "C18": dict(technique="Lean 4 proof for every capacity and check count + correspondence at the measured capacity boundary",
   text="Theorems C18_counts, C18_ok (Props/C18.lean): k checks on a channel of capacity cap give k counted and completion when k+1<=cap, else exactly cap counted and one exception; tie: capacity measured on the real pipe, runs at cap-2..cap+2 and 2-3xcap, passing/failing, overflowing test first/middle/last, forked and in-process.",
   ref="§6 C18"),
 "C04": dict(technique="Lean 4 proof (forked results are a per-test function; parent runs no test code) + permutation/subset differential on the real library",
   text="Theorems C04_isolated, C04_perm, C04_sublist (Model/PerTest.lean: mock mode, expectations, significant figures, a program global) and C04_delivery, C04_totals (Model/Runner.lean); tie: the same test set is run under several permutations, subsets and nestings with tests that switch mock mode, leave expectations pending, change significant figures, write a global, fail, skip or die; per-test reports are compared across orders and with the model.",
   ref="§6 C04"),
 "C13": dict(technique="Lean 4 proof (per-test reset makes in-process = forked) + three-mode differential on the real library",
   text="Theorems reset_is_fresh, C13_inproc_eq_fork, C13_single_eq_fork, C13_delivery (Props/C13.lean); tie: every generated suite is run forked, with CGREEN_NO_FORK and test-by-test through run_single_test, per-test failures, message class and totals compared with each other and with the model.",
   ref="§6 C13"),
 "C17": dict(technique="Lean 4 proof (counts, result lines, verdict independent of the reporter) + six-reporter differential with independent XML parsing",
   text="Theorem C17_agree (Props/C17.lean) over the one logic difference between reporters (suite finish through finish_test vs finish_suite); tie: each scenario runs under text, quiet, CUTE, XML, libxml2 and CDash, counts/attribution/verdict are recovered from each native format (expat for XML) and compared pairwise and with the model.",
   ref="§6 C17"),
 "C06": dict(technique="Lean 4 refinement proof (global queue = one FIFO per function) + step-by-step state correspondence with mocks.c through the queue-dump hook (ASan)",
   text="Theorems C06_step_refines, C06_tally_refines, C06_earliest, C06_times (every n), C06_always, C06_independent (Props/C06.lean); tie: random and long (growth-boundary crossing) histories of expect/always/never/call/tally over four functions are executed on the real mocks.c in an ASan/UBSan build, outputs and the pending queue (function, time to live, counters) are compared with the model after every operation, and outputs with the per-function FIFO specification.",
   ref="§6 C06"),
 "C07": dict(technique="Lean 4 proofs of the counting statements and of 'passes iff k = n' for every n,k + correspondence + arithmetic oracle on systematic families",
   text="Theorems C07_unsatisfied_one_failure, C07_times_check, C07_never_tally, C07_never_violated, C07_always_silent, C07_unexpected, C07_decl_after_always/never, C07_times_iff (Props/C07.lean); tie: systematic times(n) x calls x mode families judged by an independent arithmetic oracle, plus the C06 histories, on the real mocks.c.",
   ref="§6 C07"),
 "C05": dict(technique="Lean 4 proofs that each comparator (modelled as the C writes it: strstr/strcmp/int and unsigned intermediates, signed 64-bit words) equals the documented relation + exhaustive/boundary differential through the real macros in C and C++",
   text="Theorems C05_equal, C05_greater, C05_less, C05_null, C05_truth, C05_legacy_int, C05_trichotomy, C05_string_equal, C05_contains, C05_begins, C05_ends, C05_string_negations, C05_contents, C05_contents_offset (Props/C05.lean) for all 64-bit operands, all byte strings (explicit length guards) and all blocks/sizes; tie: every public constraint macro and legacy assertion is executed through the real headers (C build and C++ build with std::string overloads, ASan/UBSan) on a 32/64-bit boundary grid squared, all string pairs over {a,b,%} up to a length, random longer strings and all memory sizes x difference offsets, compared with the model and an independent oracle.",
   ref="§6 C05"),
 "C15": dict(technique="Lean 4 + Mathlib proofs over exact rationals of one generic algorithm + bit-for-bit differential of its binary64 instance against the C + exact-rational oracle",
   text="Theorems C15_symmetric, C15_reflexive, C15_complement, C15_monotone, C15_upper, C15_lower, C15_less_accepts/rejects, C15_greater_accepts/rejects (Props/C15.lean) about the exact instance, assuming only the defining property of floor(log10); tie: the same generic definitions instantiated at Lean's Float (C double + libm) must agree bit for bit with the C on every generated pair (all exponents, subnormals, signed zeros, neighbours of powers of ten, 1-ulp neighbours, opposite signs; 1-15 figures; assert_that_double, legacy forms, mock constraints); the laws are judged on the implementation's answers with exact rational arithmetic.",
   ref="§6 C15"),
 "C20": dict(technique="Lean 4 proof that every slot CgreenVector touches is inside the allocation and that it refines a list, for every history and growth step + ASan/UBSan correspondence and name/depth/count sweeps under every reporter",
   text="Theorems C20_vector_in_bounds, C20_vector_refines (add_spec, remove_spec, get_spec, step_safe) and the F07 witness (Props/C20.lean); tie: vector histories around step-1/step/step+1 (step read from src/vector.c) with removals at head/middle/tail and illegal positions run on the real vector.c under ASan and are compared with the model; suite/test names of 1-5000 characters, nesting to 120-300 levels and step+-1 tests per suite run under all six reporters in a sanitizer build.",
   ref="§6 C20"),
 "C16": dict(technique="Lean 4 proof about the tokenizer on every spelling of every argument list + tokenizer differential (ASan) + a generated translation unit compiled through the real preprocessor",
   text="Theorems C16_tokens, C16_count, C16_bind_positions, C16_bind_unique, C16_absent and the F26 witness (Props/C16.lean): for every argument list of good identifiers and every string whose non-blank characters are that list, the names, double markers and argument count are right; tie: generated spellings (arity 0-12 and 20/40/63, blanks/tabs/newlines, box_double wrapping, identifiers that are prefixes/suffixes of one another) run through the real tokenizer under ASan, and generated mock functions of arity 0-8 with when()/capture/absent-name clauses at every position are compiled and run.",
   ref="§6 C16"),
 "C10": dict(technique="Lean 4 proof (printing a percent-doubled text gives back the text; the message contains texts and values verbatim) + format tables regenerated from the C sources by a clang-AST translator with decidable typing obligations + message differential under ASan",
   text="Theorems C10_double_then_print, C10_assert_message, C10_contains (Props/C10.lean) for every expression text, value text and template; tie (1): translate/formats.py re-extracts on every run every assert_true call site (format literal or variable, C types of the variadic arguments), every constructor's value templates and the legacy macros, and Lean checks the generated obligations (every conversion reads an argument of its width; non-literal formats are only the doubled message; value templates use pointer-width conversions; legacy macros pass the text through %s); tie (2): messages of every constraint kind, legacy assertion and mock parameter check produced by the real code for texts over {%,s,d,n,5,backslash,quote,...} and integers across the intptr_t range are compared with the model and searched for the literal texts and values.",
   ref="§6 C10"),
 "C12": dict(technique="Lean 4 proofs over all 64-bit values, sizes and addresses (return, box/unbox, by-value copy, set-contents frame, capture of the low bytes, little- and big-endian) + guarded differential sweep under ASan",
   text="Theorems C12_will_return, C12_box_roundtrip, C12_by_value, C12_set_contents_written, C12_set_contents_frame, C12_capture, C12_capture_big_endian (Props/C12.lean); tie: boundary and random intptr_t values, double bit patterns (NaN payloads, signed zeros, subnormals, infinities), structures of 1-64/100/257/1000 bytes served three times by one expectation, output parameters at every size/offset inside 0xAA-filled heap blocks, captures into 1/2/4/8-byte variables between guard bytes and into mocks whose parameter names are prefixes of one another, all on the real code in an ASan build.",
   ref="§6 C12"),
 "C09": dict(technique="Lean 4 proofs (symbol parsing round trip, glob = meaning of the pattern, sort is a permutation, executed = selected, no match => failure) + differential against the real cgreen-runner on generated libraries",
   text="Theorems C09_discover, C09_glob (sound and complete w.r.t. an inductive meaning of literal+'*' patterns), sortItems_perm, C09_select, C09_no_match_fails, C09_status, C09_missing_library and the F20 witness (Props/C09.lean); tie: generated shared libraries (1-12 tests, and step-1/step/step+1/2*step+1 tests around the discovered list's growth step; several contexts plus the default one; names sharing prefixes) whose test bodies append to an execution log are run through the real cgreen-runner with patterns matching zero/one/several tests, one or several libraries with or without their own patterns, a missing library, and the -q/--xml/-X/-s options; executed multiset and exit status are compared with the model and with an independent fnmatch oracle; library paths up to 3000 characters run in a sanitizer build.",
   ref="§6 C09"),
 "C14": dict(technique="Lean 4 proofs (an overrunning test is an abnormal end: one exception and a failing verdict when forked, a non-success process end in process; the accepted values of the variable are exactly the digit strings denoting 1..INT_MAX) + real 1-second limits in all three modes compared with the model",
   text="Theorems C14_forked_exception, C14_forked_verdict, C14_inproc, C14_env, C14_env_classes (Props/C14.lean, on top of the runner refinement of C01/C02); tie: scenarios in which a test sleeps past a 1 s limit set by CGREEN_PER_TEST_TIMEOUT or by die_in(), before/after delivering 0-3 results, first/middle/last, in a context setup, forked / CGREEN_NO_FORK / run_single_test, with and without CGREEN_CHILD_EXIT_WITH__EXIT, are run on the real library and compared with the model (status, totals); values of the variable of every class (positive, zero, negative, non-numeric, empty, trailing garbage, leading blank, overflowing, signed) are run in all three modes and compared with Tmo.parseTimeout.",
   ref="§6 C14"),
}
MOCK_NOTE = ("Trusted: Lean kernel, harness/mock_ops.c and the CGREEN_VERIF queue-dump hook, the generators in harness/mock_checks.py. Modelled, not verified: parameter "
             "constraints are integer eq/ne/lt/gt clauses on up to three parameters, return values are integers; side effects, content setters, "
             "capture and double clauses are covered by C12/C15/C16; removal of never_expect entries is modelled as a filter (equivalent under the invariant of at most one per function).")
NOTES = {"C14": RUNNER_NOTE + " Assumed, not modelled: that alarm(n) delivers SIGALRM after n seconds, neither earlier nor later (the check only observes that a 1 s limit stops a sleeping test within 20 s); a failing signal() in die_in() is outside the model.",
         "C09": "Trusted: Lean kernel, the generated libraries and the execution log, Python's fnmatch as independent oracle. Modelled, not verified: nm's output format (a definition line contains ' D ' and the CgreenSpec__ symbol), fnmatch(3) restricted to literals and '*', dlopen/dlsym; the order among tests of equal name after sorting is not modelled (only the multiset is compared).",
         "C12": "Trusted: Lean kernel, harness/val_probe.c, ASan as the judge of out-of-bounds writes. The model is thin: the theorems contribute the quantifier, the assurance against a wrong size or address in the C comes from the sweep. Assumed: bit-preserving loads/stores of double by the compiler and ABI; little-endian host (the big-endian branch is proved in the model but not executed).",
         "C10": "Trusted: Lean kernel, translate/formats.py (clang-14 JSON AST walk; kept to call sites, literals and types), harness/cmp_probe.c (captures the message with vsnprintf, i.e. glibc's printf family as the judge of what a format prints). Modelled, not verified: glibc printf conversions as modelled by Fmt.parseConv; double-valued messages (%f) are typed but their digits are not compared; the +512 slack of the message buffer is not proved sufficient (ASan watches it).",
         "C16": "Trusted: Lean kernel, harness/tok_probe.c, the generated bind_probe translation unit, gcc's preprocessor (stringification). Modelled: identifiers contain no comma, parenthesis or white space; a trailing comma (which the preprocessor cannot produce) is outside the model.",
         "C20": "Trusted: Lean kernel, harness/vec_ops.c, harness/scenario_run.c, AddressSanitizer/UBSan as the judge of memory safety. Partial: the theorem covers CgreenVector (which backs expectations, constraints, parameter names and the runner's test list); fixed buffers, the breadcrumb and suite arrays are covered only by the sanitizer sweep, and memory safety of code the sweep does not reach is not shown.",
         "C05": "Trusted: Lean kernel, harness/cmp_probe.c, the Python oracles. Modelled, not verified: libc strcmp/strstr/strlen/memcmp as Lean definitions (C05_begins/C05_ends carry the explicit 2^32/2^31 length guards the C's unsigned/int intermediates impose); NULL string operands are covered by the model but not driven by the probe.",
         "C15": "Trusted: Lean kernel and the Mathlib lemmas used (axioms propext, Classical.choice, Quot.sound), harness/cmp_probe.c, Python Fractions. Partial: the theorems are about exact arithmetic; IEEE-754 rounding of '-' and '+', and libm log10/pow/floor, separate the C from it by a band the check measures (known finding F27 for the exact-threshold reading).",
         "C06": MOCK_NOTE, "C07": MOCK_NOTE, "C04": RUNNER_NOTE + " C04 additionally assumes that fork() gives the child a private copy of all memory (isolation of arbitrary user memory is the kernel's).", "C13": RUNNER_NOTE + " The test program's own globals are not the framework's to reset; the theorem excludes tests that read a global another test wrote.", "C17": RUNNER_NOTE, "C01": RUNNER_NOTE, "C02": RUNNER_NOTE, "C03": RUNNER_NOTE, "C08": RUNNER_NOTE, "C18": RUNNER_NOTE}

hooks_commits = subprocess.run(["git", "-C", "/repo", "log", "--format=%h %s", "--grep=^verif hook"], capture_output=True, text=True).stdout.strip().split("\n")
m = {"version": 1, "setup_cmd": "./setup.sh",
     "hooks": {"guard": "CGREEN_VERIF",
               "enable": "every check compiles /repo's working tree directly with gcc -DCGREEN_VERIF (harness/common.py build_impl); /repo/_build is never used",
               "baseline_off_cmd": "cmake -G Ninja -S /repo -B /repo/_build >/dev/null && cmake --build /repo/_build >/dev/null && ctest --test-dir /repo/_build -j8 --timeout 900",
               "source_commits": [c for c in hooks_commits if c], "add_only": True},
     "engines": [{"name": "lean-model", "path": "lean/", "serves_properties": sorted(CHECKS), "kind_free_text": "Lean 4 models, theorems, line-protocol driver (modeldrv)"},
                 {"name": "harness", "path": "harness/", "serves_properties": sorted(CHECKS), "kind_free_text": "C drivers against the real code + python generators/differs/oracles"}],
     "checks": [], "notes": "See DESIGN.md. One entry point: ./check <id> --tier quick|thorough.",
     "not_applicable": []}
for p in props:
    i = p["id"]
    if i in CHECKS:
        c = CHECKS[i]
        m["checks"].append({"property_id": i, "quick_cmd": f"./check {i} --tier quick", "thorough_cmd": f"./check {i} --tier thorough",
                            "evidence_file": f"evidence/{i}.json", "replay_cmd_template": f"./check {i} --replay {{path}}", "engine": "lean-model",
                            "level_claimed": {"category": "proof", "text": c["text"], "design_ref": c["ref"]},
                            "level_note": NOTES[i], "technique": c["technique"]})
    else:
        m["not_applicable"].append({"property_id": i, "reason": "check not built yet (construction in progress; see DESIGN.md section 9)"})
json.dump(m, open(os.path.join(V, "MANIFEST.json"), "w"), indent=1)
print("checks:", [c["property_id"] for c in m["checks"]])
