#!/bin/sh
# MANIFEST.setup_cmd: build the Lean library and the model driver offline.
set -e
cd "$(dirname "$0")/lean"
lake build CgreenModel modeldrv 2>&1 | tail -5
